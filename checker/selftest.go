package main

import (
	"go/ast"
	"go/importer"
	"go/parser"
	"go/token"
	"go/types"
)

// typeCheckSnippet parses and type-checks a small self-contained source (standard-library imports only).
// Used by rules whose expected number of matches on the real tree is zero: a positive example must still be
// recognised on every run, otherwise the rule would pass vacuously forever.
func typeCheckSnippet(src string) (*token.FileSet, *ast.File, *types.Info, error) {
	fset := token.NewFileSet()
	f, err := parser.ParseFile(fset, "fixture.go", src, 0)
	if err != nil {
		return nil, nil, nil, err
	}
	info := &types.Info{Types: map[ast.Expr]types.TypeAndValue{}, Defs: map[*ast.Ident]types.Object{}, Uses: map[*ast.Ident]types.Object{},
		Selections: map[*ast.SelectorExpr]*types.Selection{}}
	conf := types.Config{Importer: importer.ForCompiler(fset, "source", nil)}
	if _, err := conf.Check("fixture", fset, []*ast.File{f}, info); err != nil {
		return nil, nil, nil, err
	}
	return fset, f, info, nil
}

// rangeStringByteIndexBad: `for i := range <string>` without a used value variable whose body indexes a string with i.
func rangeStringByteIndexBad(info *types.Info, rs *ast.RangeStmt) (isStringLoop, bad bool) {
	if rs.Key == nil {
		return false, false
	}
	tv, ok := info.Types[rs.X]
	if !ok || tv.Type == nil {
		return false, false
	}
	if b, isBasic := tv.Type.Underlying().(*types.Basic); !isBasic || b.Info()&types.IsString == 0 {
		return false, false
	}
	key := objOf(info, rs.Key)
	valUsed := rs.Value != nil && exprString(rs.Value) != "_"
	if key == nil || valUsed {
		return true, false
	}
	ast.Inspect(rs.Body, func(y ast.Node) bool {
		if ix, ok := y.(*ast.IndexExpr); ok && objOf(info, ix.Index) == key {
			if it, ok := info.Types[ix.X]; ok && it.Type != nil {
				if bb, isBasic := it.Type.Underlying().(*types.Basic); isBasic && bb.Info()&types.IsString != 0 {
					bad = true
				}
			}
		}
		return true
	})
	return true, bad
}

const rangeStringFixture = `package fixture
func commonPrefix(a, b string) int {
	for i := range a {
		if a[i] != b[i] {
			return i
		}
	}
	return len(a)
}
func runes(a string) int {
	n := 0
	for _, r := range a {
		if r > 127 {
			n++
		}
	}
	return n
}
`

// selfTestRangeString records a fixture obligation: the positive example is flagged, the negative one is not.
func selfTestRangeString(c *Ctx, rule string) {
	_, f, info, err := typeCheckSnippet(rangeStringFixture)
	if err != nil {
		c.Unresolved(rule, "fixture", 0, "fixture does not type-check: "+err.Error())
		return
	}
	pos, neg := 0, 0
	ast.Inspect(f, func(n ast.Node) bool {
		if rs, ok := n.(*ast.RangeStmt); ok {
			if is, bad := rangeStringByteIndexBad(info, rs); is {
				if bad {
					pos++
				} else {
					neg++
				}
			}
		}
		return true
	})
	if pos == 1 && neg == 1 {
		c.add(rule, "fixture:positive-and-negative", 0, "held", "the built-in positive example is flagged and the negative one is not")
	} else {
		c.Unresolved(rule, "fixture:positive-and-negative", 0, "the rule no longer recognises its own fixture")
	}
}
