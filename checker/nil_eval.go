package main

import (
	"go/ast"
	"go/token"
	"go/types"

	"golang.org/x/tools/go/cfg"
)

// nilAssume: three-valued evaluation of branch conditions under assumptions "object o is nil / is not nil".
// 1 true, 0 false, -1 unknown. Used to prune infeasible CFG edges for a scenario ("old given, reference missing").
type nilAssume struct {
	info  *types.Info
	isNil map[types.Object]bool // true: nil, false: non-nil
}

func (a *nilAssume) eval(e ast.Expr) int {
	e = unparen(e)
	switch v := e.(type) {
	case *ast.UnaryExpr:
		if v.Op == token.NOT {
			switch a.eval(v.X) {
			case 1:
				return 0
			case 0:
				return 1
			}
		}
		return -1
	case *ast.BinaryExpr:
		switch v.Op {
		case token.LAND:
			x := a.eval(v.X)
			if x == 0 {
				return 0
			}
			y := a.eval(v.Y)
			if y == 0 {
				return 0
			}
			if x == 1 && y == 1 {
				return 1
			}
			return -1
		case token.LOR:
			x := a.eval(v.X)
			if x == 1 {
				return 1
			}
			y := a.eval(v.Y)
			if y == 1 {
				return 1
			}
			if x == 0 && y == 0 {
				return 0
			}
			return -1
		case token.EQL, token.NEQ:
			for _, pair := range [][2]ast.Expr{{v.X, v.Y}, {v.Y, v.X}} {
				if !isNil(a.info, pair[1]) {
					continue
				}
				o := objOf(a.info, pair[0])
				if o == nil {
					continue
				}
				n, known := a.isNil[o]
				if !known {
					continue
				}
				if (v.Op == token.EQL) == n {
					return 1
				}
				return 0
			}
		}
	case *ast.Ident:
		// `ok` of a map lookup assumed missing is handled by the caller through isNil on the value only
	}
	return -1
}

// blockEdge returns a BlockEdge function that prunes edges infeasible under the assumptions.
func (a *nilAssume) blockEdge() func(b *cfg.Block, i int) bool {
	return func(b *cfg.Block, i int) bool {
		if len(b.Succs) != 2 || len(b.Nodes) == 0 {
			return false
		}
		cond, ok := b.Nodes[len(b.Nodes)-1].(ast.Expr)
		if !ok {
			return false
		}
		if tv, ok := a.info.Types[cond]; !ok || tv.Type == nil || !isBoolType(tv.Type) {
			return false
		}
		switch a.eval(cond) {
		case 1:
			return i == 1
		case 0:
			return i == 0
		}
		return false
	}
}
