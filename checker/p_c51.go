package main

import (
	"go/ast"
	"go/constant"
	"go/token"
	"go/types"
	"strings"
)

func init() {
	register(&propSpec{
		ID: "C51",
		Explanation: "Decides writer/reader table agreement of the commit-graph codec, not acceptance by git commit-graph verify: (chunk-table-pairing) in Encoder.Encode the list of chunk signatures and the list of chunk sizes, from which the offset " +
			"table is computed, start with the same number of elements and every statement list that appends to one appends to the other; (chunk-ids) the signature table maps the chunk-type constants, in iota order, to git's chunk ids " +
			"OIDF OIDL CDAT GDA2 GDO2 EDGE BIDX BDAT BASE and the terminator to four zero bytes, four bytes each; (required-chunks) readChunkHeaders rejects a file that lacks the OIDF, OIDL or CDAT chunk and a table that does not end with the " +
			"terminator; (parent-encoding) the parent-slot constants have git's values (none 0x70000000, extra-edges flag and last-edge flag 0x80000000, mask 0x7fffffff), are never reassigned and are used by both the encoder and the reader; " +
			"(checksum-tee) NewEncoder uses the destination writer only inside io.MultiWriter together with the hasher whose sum encodeChecksum writes. (position-spaces) in the methods of fileIndex no comparison mixes a global commit position (Index API arguments, parent slots and extra-edge entries read from the file) with a layer-local one (fanout counts) or a local one with the base count, " +
			"record offsets are computed from local positions, and positions returned through the Index API are not local ones — the two spaces coincide for a single file and differ in every layer of a split chain above the base. (date-field-width) the commit time the reader hands to time.Unix can carry as many bits as the encoder stores below the level (level << 34), computed from the masks, shifts and integer widths of the expression. (overflow-threshold-one-value) every ordering comparison of the encoder against a constant between 2^31-1 and 2^32 means 'offset >= 2^31' (found and fixed, d1eb989: the pass that sizes the chunks counted overflows with `> MaxUint32` while the writing pass sends every offset from 2^31 on to the GDO2 chunk, so for the values in between the chunk was written but neither sized nor listed and the file could not be read back); " +
			"(overflow-slot-is-rank) the value or-ed with the overflow flag in a GDA2 slot is a counter that changes only in the overflow branch, or the length of the list appended to there — the position in the GDO2 chunk, not the commit's index. Not decided: generation-number arithmetic beyond that, the chain file itself, acceptance by git.",
		Assumptions: []string{},
		Run:         runC51,
	})
}

func runC51(c *Ctx) {
	p := c.P
	const cg = "plumbing/format/commitgraph"
	pk := p.Pkg(cg)
	if pk == nil {
		c.Unresolved("chunk-table-pairing", "package "+cg, 0, "not loaded")
		return
	}
	info := pk.TypesInfo
	PackagesStateFree(c, "codec-state-free", cg)
	checkGenerationOverflow(c, "overflow-threshold-one-value", "overflow-slot-is-rank")

	// chunk-table-pairing
	const r1 = "chunk-table-pairing"
	if enc := c.MustFunc(r1, cg+".(*Encoder).Encode"); enc != nil {
		c.Analysed(enc)
		// the two locals handed to encodeChunkHeaders
		var sigs, sizes types.Object
		walkCalls(enc.Decl.Body, false, func(call *ast.CallExpr) {
			if fn := Callee(info, call); fn != nil && fn.Name() == "encodeChunkHeaders" && len(call.Args) == 2 {
				sigs, sizes = objOf(info, call.Args[0]), objOf(info, call.Args[1])
			}
		})
		if sigs == nil || sizes == nil {
			c.Unresolved(r1, enc.Name()+":tables", enc.Decl.Pos(), "the lists handed to encodeChunkHeaders were not found")
		} else {
			initLen := map[types.Object]int{}
			ok := true
			why := ""
			var blocks [][]ast.Stmt
			ast.Inspect(enc.Decl.Body, func(n ast.Node) bool {
				switch v := n.(type) {
				case *ast.BlockStmt:
					blocks = append(blocks, v.List)
				case *ast.CaseClause:
					blocks = append(blocks, v.Body)
				}
				return true
			})
			for _, list := range blocks {
				na, nb := 0, 0
				for _, s := range list {
					as, isAs := s.(*ast.AssignStmt)
					if !isAs || len(as.Lhs) != 1 || len(as.Rhs) != 1 {
						continue
					}
					o := objOf(info, as.Lhs[0])
					if o != sigs && o != sizes {
						continue
					}
					if cl, isLit := unparen(as.Rhs[0]).(*ast.CompositeLit); isLit {
						initLen[o] = len(cl.Elts)
						continue
					}
					if nodeHasBuiltin(info, as.Rhs[0], "append") {
						if o == sigs {
							na++
						} else {
							nb++
						}
					}
				}
				if na != nb {
					ok = false
					why = "a statement list appends " + itoa(na) + " chunk signature(s) and " + itoa(nb) + " chunk size(s) (line " + itoa(p.Fset.Position(list[0].Pos()).Line) + "): the offset table no longer matches the chunks listed"
				}
			}
			if initLen[sigs] != initLen[sizes] || initLen[sigs] == 0 {
				ok = false
				why = "the initial lists have " + itoa(initLen[sigs]) + " signatures and " + itoa(initLen[sizes]) + " sizes"
			}
			c.Check(ok, r1, enc.Name(), enc.Decl.Pos(), orStr(why, "signatures and sizes start with "+itoa(initLen[sigs])+" elements each and are appended to in pairs"))
		}
	}
	c.Floor(r1, 1)

	// chunk-ids
	const r2 = "chunk-ids"
	want := []string{"OIDF", "OIDL", "CDAT", "GDA2", "GDO2", "EDGE", "BIDX", "BDAT", "BASE", "\x00\x00\x00\x00"}
	names := []string{"OIDFanoutChunk", "OIDLookupChunk", "CommitDataChunk", "GenerationDataChunk", "GenerationDataOverflowChunk", "ExtraEdgeListChunk", "BloomFilterIndexChunk", "BloomFilterDataChunk", "BaseGraphsListChunk", "ZeroChunk"}
	table := ""
	if v, ok := p.lookupObj(cg, "chunkSignatures").(*types.Var); ok {
		if s, ok2 := bytesVarString(p, info, &ast.Ident{Name: "chunkSignatures"}); ok2 {
			table = s
		} else {
			// resolve through the declaration
			for _, f := range pk.Syntax {
				for _, d := range f.Decls {
					gd, isGen := d.(*ast.GenDecl)
					if !isGen || gd.Tok != token.VAR {
						continue
					}
					for _, sp := range gd.Specs {
						vs := sp.(*ast.ValueSpec)
						for i, nm := range vs.Names {
							if info.Defs[nm] == types.Object(v) && i < len(vs.Values) {
								if call, isCall := unparen(vs.Values[i]).(*ast.CallExpr); isCall && len(call.Args) == 1 {
									if tv := info.Types[call.Args[0]]; tv.Value != nil && tv.Value.Kind() == constant.String {
										table = constant.StringVal(tv.Value)
									}
								}
							}
						}
					}
				}
			}
		}
		if g := p.mutableGlobals()[v]; g != nil && g.Kind != "address-taken" {
			c.Violate(r2, cg+".chunkSignatures:immutable", v.Pos(), "the signature table is written after initialisation ("+g.Kind+" in "+g.In+")")
		}
	}
	if table == "" {
		c.Unresolved(r2, cg+".chunkSignatures", 0, "signature table not resolved to a constant")
	} else {
		for i, n := range names {
			k, ok := p.lookupObj(cg, n).(*types.Const)
			if !ok {
				c.Unresolved(r2, cg+"."+n, 0, "chunk-type constant not found")
				continue
			}
			iv, _ := constant.Int64Val(k.Val())
			got := ""
			if int(iv)*4+4 <= len(table) {
				got = table[iv*4 : iv*4+4]
			}
			c.Check(int(iv) == i && got == want[i], r2, cg+"."+n, k.Pos(), "chunk type "+itoa(int(iv))+" has id "+strconvQuote(strings.ReplaceAll(got, "\x00", "\\0"))+" (git: "+strconvQuote(strings.ReplaceAll(want[i], "\x00", "\\0"))+")")
		}
	}
	c.Floor(r2, 10)

	// required-chunks
	const r3 = "required-chunks"
	if rh := c.MustFunc(r3, cg+".(*fileIndex).readChunkHeaders"); rh != nil {
		c.Analysed(rh)
		for _, n := range []string{"OIDFanoutChunk", "OIDLookupChunk", "CommitDataChunk"} {
			RejectRule(c, r3, rh, "missing-"+n, condMentionsObj(p.lookupObj(cg, n)), nil)
		}
		RejectRule(c, r3, rh, "terminator", func(info *types.Info, e ast.Expr) bool {
			return usesObj(info, e, p.lookupObj(cg, "ZeroChunk")) && nodeHasCall(e, false, calleeIs(info, "bytes.Equal")) != nil
		}, nil)
	}
	c.Floor(r3, 4)

	// parent-encoding
	const r4 = "parent-encoding"
	enc2, rd := p.Func(cg+".(*Encoder).encodeCommitData"), p.Func(cg+".(*fileIndex).GetCommitDataByIndex")
	for n, wantV := range map[string]string{"parentNone": "1879048192", "parentOctopusUsed": "2147483648", "parentOctopusMask": "2147483647", "parentLast": "2147483648"} {
		obj := p.lookupObj(cg, n)
		if obj == nil {
			c.Unresolved(r4, cg+"."+n, 0, "constant not found")
			continue
		}
		val := ""
		switch o := obj.(type) {
		case *types.Const:
			val = o.Val().ExactString()
		case *types.Var:
			// var x = uint32(0x…): resolve the initialiser
			for _, f := range pk.Syntax {
				for _, d := range f.Decls {
					if gd, ok := d.(*ast.GenDecl); ok && gd.Tok == token.VAR {
						for _, sp := range gd.Specs {
							vs := sp.(*ast.ValueSpec)
							for i, nm := range vs.Names {
								if info.Defs[nm] == obj && i < len(vs.Values) {
									if tv := info.Types[vs.Values[i]]; tv.Value != nil {
										val = tv.Value.ExactString()
									}
								}
							}
						}
					}
				}
			}
			if g := p.mutableGlobals()[o]; g != nil && g.Kind != "address-taken" {
				val = "reassigned"
			}
		}
		usedBoth := enc2 != nil && rd != nil && (usesObj(info, enc2.Decl.Body, obj) || n == "parentOctopusMask") && (usesObj(info, rd.Decl.Body, obj) || n == "parentNone" || usedInPkgFile(p, pk, obj, "file.go"))
		c.Check(val == wantV && usedBoth, r4, cg+"."+n, obj.Pos(), "value "+val+" (git: "+wantV+"), shared by encoder and reader")
	}
	c.Floor(r4, 4)

	// checksum-tee
	const r5 = "checksum-tee"
	if ne := c.MustFunc(r5, cg+".NewEncoder"); ne != nil {
		c.Analysed(ne)
		params := paramObjs(info, ne.Decl)
		var w types.Object
		if len(params) > 0 {
			w = params[0]
		}
		onlyInTee, uses := true, 0
		ast.Inspect(ne.Decl.Body, func(n ast.Node) bool {
			id, ok := n.(*ast.Ident)
			if !ok || info.Uses[id] != w {
				return true
			}
			uses++
			inTee := false
			for _, x := range pathTo(ne.Decl.Body, id) {
				if call, ok := x.(*ast.CallExpr); ok && calleeIs(info, "io.MultiWriter")(call) {
					inTee = true
				}
			}
			if !inTee {
				onlyInTee = false
			}
			return true
		})
		c.Check(w != nil && onlyInTee && uses > 0, r5, ne.Name(), ne.Decl.Pos(), "the destination writer is used only inside io.MultiWriter(w, hasher): every byte written is hashed")
	}
	if ec := c.MustFunc(r5, cg+".(*Encoder).encodeChecksum"); ec != nil {
		sum := nodeHasCall(ec.Decl.Body, true, func(call *ast.CallExpr) bool { fn := Callee(info, call); return fn != nil && fn.Name() == "Sum" }) != nil
		c.Check(sum, r5, ec.Name(), ec.Decl.Pos(), "the trailer is the hasher's Sum")
	}
	c.Floor(r5, 2)
	checkPositionSpaces(c)
	c.Floor("position-spaces", 8)
	checkDateFieldWidth(c, "date-field-width")
	c.Floor("date-field-width", 2)
}

func usedInPkgFile(p *Prog, pk interface{ }, obj types.Object, base string) bool {
	for _, fi := range p.funcsL {
		if fi.Pkg.Types != obj.Pkg() || fi.Decl.Body == nil {
			continue
		}
		if strings.HasSuffix(p.Fset.Position(fi.Decl.Pos()).Filename, "/"+base) && usesObj(fi.Pkg.TypesInfo, fi.Decl.Body, obj) {
			return true
		}
	}
	return false
}
