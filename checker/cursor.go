package main

import (
	"go/ast"
	"go/constant"
	"go/token"
	"go/types"
)

// CursorFollowsReader: a variable that counts the bytes consumed from a buffered reader (`pos += n` with n the result
// of the reader's Discard/Read) is that reader's cursor. When the reader is re-pointed (`r.Reset(src)`), the cursor
// has to be assigned a constant before it is read again; otherwise every later distance computed from it is off by
// the old position and the wrong region of the source is streamed, without any error.
// One obligation per (reader, cursor, Reset call). Returns the number of obligations.
func CursorFollowsReader(c *Ctx, rule string, fi *FuncInfo) int {
	info := fi.Pkg.TypesInfo
	n := 0
	var bodies []*ast.BlockStmt
	bodies = append(bodies, fi.Decl.Body)
	ast.Inspect(fi.Decl.Body, func(x ast.Node) bool {
		if lit, ok := x.(*ast.FuncLit); ok {
			bodies = append(bodies, lit.Body)
		}
		return true
	})
	isBufReader := func(o types.Object) bool {
		if o == nil {
			return false
		}
		return types.TypeString(o.Type(), nil) == "*bufio.Reader"
	}
	for _, body := range bodies {
		// n -> reader, for `n, err := r.Discard(..)` / r.Read(..)
		countOf := map[types.Object]types.Object{}
		inspectNoLits(body, func(x ast.Node) {
			as, ok := x.(*ast.AssignStmt)
			if !ok || len(as.Rhs) != 1 || len(as.Lhs) < 1 {
				return
			}
			call, ok := unparen(as.Rhs[0]).(*ast.CallExpr)
			if !ok {
				return
			}
			sel, ok := unparen(call.Fun).(*ast.SelectorExpr)
			if !ok || (sel.Sel.Name != "Discard" && sel.Sel.Name != "Read") {
				return
			}
			r := objOf(info, sel.X)
			if !isBufReader(r) {
				return
			}
			if no := objOf(info, as.Lhs[0]); no != nil {
				countOf[no] = r
			}
		})
		// cursor -> reader, for `pos += conv(n)`
		cursorOf := map[types.Object]types.Object{}
		inspectNoLits(body, func(x ast.Node) {
			as, ok := x.(*ast.AssignStmt)
			if !ok || as.Tok != token.ADD_ASSIGN || len(as.Lhs) != 1 {
				return
			}
			p := objOf(info, as.Lhs[0])
			if p == nil {
				return
			}
			ast.Inspect(as.Rhs[0], func(y ast.Node) bool {
				if id, ok := y.(*ast.Ident); ok {
					if r, ok := countOf[objOf(info, id)]; ok {
						cursorOf[p] = r
					}
				}
				return true
			})
		})
		if len(cursorOf) == 0 {
			continue
		}
		var f *Flow
		for p, r := range cursorOf {
			isReset := func(call *ast.CallExpr) bool {
				sel, ok := unparen(call.Fun).(*ast.SelectorExpr)
				return ok && sel.Sel.Name == "Reset" && objOf(info, sel.X) == r
			}
			assignsConst := func(nd ast.Node) bool {
				as, ok := nd.(*ast.AssignStmt)
				if !ok || as.Tok != token.ASSIGN || len(as.Lhs) != len(as.Rhs) {
					return false
				}
				for i, l := range as.Lhs {
					if objOf(info, l) == p {
						tv := info.Types[as.Rhs[i]]
						if tv.Value != nil && tv.Value.Kind() == constant.Int {
							return true
						}
						// conversion of a constant: uint(0)
						if call, ok := unparen(as.Rhs[i]).(*ast.CallExpr); ok && len(call.Args) == 1 {
							if tv := info.Types[call.Args[0]]; tv.Value != nil {
								return true
							}
						}
					}
				}
				return false
			}
			readsCursor := func(nd ast.Node) bool {
				found := false
				ast.Inspect(nd, func(y ast.Node) bool {
					if _, isLit := y.(*ast.FuncLit); isLit {
						return false
					}
					if as, ok := y.(*ast.AssignStmt); ok && as.Tok == token.ASSIGN {
						// a plain assignment to the cursor does not read it; its right-hand side may
						for _, rhs := range as.Rhs {
							if usesObj(info, rhs, p) {
								found = true
							}
						}
						for _, l := range as.Lhs {
							if objOf(info, l) != p && usesObj(info, l, p) {
								found = true
							}
						}
						return false
					}
					if id, ok := y.(*ast.Ident); ok && info.Uses[id] == p {
						found = true
					}
					return !found
				})
				return found
			}
			if f == nil {
				f = c.P.NewFlow(info, body)
			}
			k := 0
			for _, loc := range f.Locs(CallNode(false, isReset)) {
				k++
				n++
				key := fi.Name() + ":" + r.Name() + ".Reset/" + p.Name() + ifStr(k > 1, "#"+itoa(k))
				h := f.Search(SearchOpts{Starts: []Loc{After(loc)}, Sink: readsCursor, Barrier: assignsConst})
				c.Analysed(fi)
				if h != nil {
					c.Violate(rule, key, loc.B.Nodes[loc.Idx].Pos(), r.Name()+" is re-pointed at a fresh source but its cursor `"+p.Name()+"` keeps the old position and is read again at "+c.P.Pos(h.Node.Pos())+": later distances are computed from a position the reader is not at, the wrong bytes of the source are streamed and no error is reported")
				} else {
					c.Hold(rule, key, loc.B.Nodes[loc.Idx].Pos(), "the cursor `"+p.Name()+"` is assigned a constant after "+r.Name()+" is re-pointed, before it is read again")
				}
			}
		}
	}
	return n
}

// inspectNoLits visits the nodes of body, not entering nested function literals.
func inspectNoLits(body *ast.BlockStmt, fn func(ast.Node)) {
	ast.Inspect(body, func(x ast.Node) bool {
		if x == nil {
			return false
		}
		if _, ok := x.(*ast.FuncLit); ok && x != ast.Node(body) {
			return false
		}
		fn(x)
		return true
	})
}
