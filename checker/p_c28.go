package main

import (
	"go/ast"
	"go/constant"
	"go/token"
	"go/types"
)

func init() {
	register(&propSpec{
		ID: "C28",
		Explanation: "Decides four structural conditions of 'add, remove, move, clean and commit produce git's index and trees', found by comparing the result of generated operation sequences with git's (discovery only; the check is static) and violated on the tree as found: " +
			"(deleted-path-not-read) Worktree.doAddFile does not read the content of a path the status reports as deleted in the worktree — under the assumption `s != nil && s.File(path).Worktree == Deleted` no path reaches copyFileToStorage and the index removal is reached: " +
			"a directory replaced by a file (or the reverse) made AddWithOptions{All}, Add of the parent and Commit{All} fail with ENOTDIR / 'is a directory' (fixed 6124246); " +
			"(new-entry-drops-conflicts) every call of (*index.Index).Add in package git is preceded on every path by a call of a function that removes the entries that are a leading directory of the new name or lie below it (two prefix tests against name+\"/\", one in each direction): " +
			"the index held `a` and `a/x` together and the committed tree had a blob and a tree under one name (fixed bd49cc3); " +
			"(missing-covers-not-a-directory) the test that lets Worktree.Remove pass over a file that is not there accepts ENOTDIR beside not-exist (fixed 4d18a92); " +
			"(remove-cleans-empty-parents) after Worktree.Remove has removed a single file, the success return is reached only through a call that removes emptied leading directories, as for RemoveGlob and directories (fixed 4e1855c); (move-carries-entry) Worktree.Move makes the destination entry of the source's entry and its static closure does not reach the stat refresh doUpdateFileToIndex — " +
			"refreshing paired the old blob with stat data matching the new content, so a file modified before the move showed as unmodified (fixed e6be7cb); (tree-builder-component-boundaries) the commit's tree builder splits entry names at \"/\" and tests no variable string prefix that does not end in \"/\"; (clean-descends-into-every-directory) doClean passes an entry over only for .git or, for directories, without the Dir option, and removes the visited directory when it is empty. " +
			"Not decided: the entries and trees produced (values), glob semantics, Move with a modified source, Clean's treatment of files below a tracked file turned directory (git keeps them as 'killed' files), modes and stat data.",
		Assumptions: []string{},
		Run:         runC28,
	})
}

func runC28(c *Ctx) {
	p := c.P
	gitPk := p.Pkg("git")
	if gitPk == nil {
		c.Unresolved("deleted-path-not-read", "package git", 0, "not loaded")
		return
	}
	info := gitPk.TypesInfo

	// ---- deleted-path-not-read
	const r1 = "deleted-path-not-read"
	if fi := c.MustFunc(r1, "git.(*Worktree).doAddFile"); fi != nil {
		c.Analysed(fi)
		var statusParam types.Object
		for _, po := range paramObjs(info, fi.Decl) {
			if tn, ok := po.Type().(*types.Named); ok && tn.Obj().Name() == "Status" {
				statusParam = po
			}
		}
		deleted, _ := p.lookupObj("git", "Deleted").(*types.Const)
		fsTN := p.lookupType("git", "FileStatus")
		var wtField *types.Var
		if fsTN != nil {
			wtField = fieldOf(fsTN, "Worktree")
		}
		if statusParam == nil || deleted == nil || wtField == nil {
			c.Unresolved(r1, fi.Name()+":anchors", fi.Decl.Pos(), "the status parameter, the Deleted code or FileStatus.Worktree was not found")
		} else {
			a := &condAssume{info: info, nilv: map[types.Object]bool{statusParam: false}, eq: map[types.Object]types.Object{wtField: deleted}}
			f := p.FlowOf(fi)
			reads := CallNode(false, callsNamed(info, "copyFileToStorage"))
			drops := CallNode(false, callsNamed(info, "deleteFromIndex"))
			nReads := len(f.Locs(reads))
			h := f.Search(SearchOpts{Starts: []Loc{f.Entry()}, Sink: reads, BlockEdge: a.blockEdge()})
			c.Check(h == nil && nReads > 0, r1, fi.Name()+"->copyFileToStorage", orPos(hitPos(h), fi.Decl.Pos()), orStr(ifStr(h != nil, "the content of a path that the status reports as deleted in the worktree is read: when a directory has taken the file's place (or a file the place of its directory) the read fails with 'is a directory' / ENOTDIR and the whole add fails"),
				ifElse(nReads == 0, "no content read found", "a path reported deleted is not read")))
			h2 := f.Search(SearchOpts{Starts: []Loc{f.Entry()}, Sink: drops, BlockEdge: a.blockEdge()})
			c.Check(h2 != nil, r1, fi.Name()+"->deleteFromIndex", fi.Decl.Pos(), orStr(ifStr(h2 == nil, "a path reported deleted does not reach the index removal"), "a path reported deleted is dropped from the index"))
		}
	}

	// ---- new-entry-drops-conflicts
	const r2 = "new-entry-drops-conflicts"
	idxAdd := p.Func(idxShort + ".(*Index).Add")
	if idxAdd == nil {
		c.Unresolved(r2, idxShort+".(*Index).Add", 0, "anchor not found")
	} else {
		// functions of package git that remove both kinds of conflicting entries
		removers := map[*types.Func]bool{}
		for _, fi := range p.FuncsIn("git") {
			if fi.Decl.Body == nil || p.isTestFile(fi.Decl.Pos()) {
				continue
			}
			below, above := false, false
			walkCalls(fi.Decl.Body, true, func(call *ast.CallExpr) {
				fn := Callee(info, call)
				if fn == nil || fn.Pkg() == nil || fn.Pkg().Path() != "strings" || fn.Name() != "HasPrefix" || len(call.Args) != 2 {
					return
				}
				be, ok := unparen(call.Args[1]).(*ast.BinaryExpr)
				if !ok || be.Op != token.ADD {
					return
				}
				if tv := info.Types[be.Y]; tv.Value == nil || tv.Value.Kind() != constant.String || constant.StringVal(tv.Value) != "/" {
					return
				}
				entryFirst := mentionsEntryName(info, call.Args[0])
				entryPrefix := mentionsEntryName(info, be.X)
				if entryFirst && !entryPrefix {
					below = true // the entry lies below the new name
				}
				if entryPrefix && !entryFirst {
					above = true // the entry is a leading directory of the new name
				}
			})
			if below && above {
				removers[fi.Obj] = true
			}
		}
		n := 0
		for _, s := range p.CallSites(func(_ *types.Info, _ *ast.CallExpr, callee *types.Func) bool { return callee == idxAdd.Obj }) {
			if p.isTestFile(s.Call.Pos()) || s.In == nil || s.In.Pkg != gitPk {
				continue
			}
			n++
			c.Analysed(s.In)
			f := p.FlowOf(s.In)
			isRemover := CallNode(false, func(call *ast.CallExpr) bool { return removers[Callee(info, call)] })
			target := CallNode(false, func(call *ast.CallExpr) bool { return call == s.Call })
			h := f.Search(SearchOpts{Starts: []Loc{f.Entry()}, Sink: target, Barrier: isRemover})
			c.Check(h == nil, r2, s.In.Name()+"->Index.Add", s.Call.Pos(), orStr(ifStr(h != nil, "a new entry is appended to the index without removing the entries it cannot share a tree with (a leading directory that was a file, the entries below a former directory): the index then holds `a` and `a/x`, git rejects it and the tree written from it has two entries named `a`"),
				"conflicting entries are dropped before the new entry is appended"))
		}
		c.Check(n >= 1, r2, "git:Index.Add-callers", 0, itoa(n)+" call(s) of Index.Add in package git examined")
	}

	// ---- missing-covers-not-a-directory
	const r3 = "missing-covers-not-a-directory"
	if fi := c.MustFunc(r3, "git.(*Worktree).deleteFromFilesystem"); fi != nil {
		c.Analysed(fi)
		n, bad := 0, token.NoPos
		ast.Inspect(fi.Decl.Body, func(nd ast.Node) bool {
			ifs, ok := nd.(*ast.IfStmt)
			if !ok {
				return true
			}
			notExist := nodeHasCall(ifs.Cond, false, func(call *ast.CallExpr) bool {
				fn := Callee(info, call)
				return fn != nil && fn.Pkg() != nil && fn.Pkg().Path() == "os" && fn.Name() == "IsNotExist"
			}) != nil || usesObjNamed(info, ifs.Cond, "ErrNotExist")
			if !notExist {
				return true
			}
			n++
			if !usesObjNamed(info, ifs.Cond, "ENOTDIR") {
				bad = ifs.Pos()
			}
			return true
		})
		ok := n > 0 && !bad.IsValid()
		c.Check(ok, r3, fi.Name(), orPos(bad, fi.Decl.Pos()), orStr(ifStr(!ok, ifElse(n == 0, "no not-exist test found on the removal's error", "the removal passes over a file that does not exist but not over one whose leading directory has become a file (ENOTDIR): Worktree.Remove fails instead of dropping the index entry")),
			"a missing file is ENOENT or ENOTDIR"))
	}

	checkMoveCarriesEntry(c, "move-carries-entry")
	checkTreeBuilderPrefixes(c, "tree-builder-component-boundaries")
	checkCleanDescendsEverywhere(c, "clean-descends-into-every-directory")

	// ---- remove-cleans-empty-parents
	const r4 = "remove-cleans-empty-parents"
	if fi := c.MustFunc(r4, "git.(*Worktree).Remove"); fi != nil {
		c.Analysed(fi)
		f := p.FlowOf(fi)
		rmDir := p.Func("git.removeDirIfEmpty")
		cleans := func(call *ast.CallExpr) bool {
			fn := Callee(info, call)
			if fn == nil || rmDir == nil {
				return false
			}
			root := p.FuncOf(fn)
			if root == nil {
				return false
			}
			for _, cf := range p.staticClosure([]*FuncInfo{root}) {
				if cf.Obj == rmDir.Obj {
					return true
				}
			}
			return false
		}
		rmFile := CallNode(false, callsNamed(info, "doRemoveFile"))
		locs := f.Locs(rmFile)
		if len(locs) == 0 || rmDir == nil {
			c.Unresolved(r4, fi.Name()+":anchors", fi.Decl.Pos(), "doRemoveFile call or removeDirIfEmpty not found")
		}
		for _, l := range locs {
			// the error variable assigned by the call is assumed nil (the removal succeeded)
			var errObj types.Object
			if as, ok := l.B.Nodes[l.Idx].(*ast.AssignStmt); ok && len(as.Lhs) >= 1 {
				errObj = objOf(info, as.Lhs[len(as.Lhs)-1])
			}
			a := &condAssume{info: info, nilv: map[types.Object]bool{}}
			if errObj != nil {
				a.nilv[errObj] = true
			}
			success := func(n ast.Node) bool {
				r, ok := n.(*ast.ReturnStmt)
				return ok && nodeHasCall(r, false, callsNamed(info, "SetIndex")) != nil
			}
			h := f.Search(SearchOpts{Starts: []Loc{After(l)}, Sink: success, Barrier: CallNode(false, cleans), BlockEdge: a.blockEdge()})
			c.Check(h == nil, r4, fi.Name()+"->doRemoveFile", l.B.Nodes[l.Idx].Pos(), orStr(ifStr(h != nil, "after the file has been removed the index is written without removing the leading directories the removal has emptied: git rm (and RemoveGlob, and Remove of a directory) remove them"),
				"the emptied leading directories are removed before the index is written"))
		}
	}
}

// checkMoveCarriesEntry (C28): git mv renames the index entry and leaves its hash and stat data alone, so a file that was
// modified before the move still shows as modified afterwards. Building the destination entry from the old hash and the
// file's current stat data makes the modified file look unchanged against a hash that is not its content. Decided: the
// static closure of Worktree.Move does not reach doUpdateFileToIndex (the stat refresh), and the entry removed for the
// source is read again after the rename (it is what the destination entry is made of).
func checkMoveCarriesEntry(c *Ctx, rule string) {
	p := c.P
	fi := c.MustFunc(rule, "git.(*Worktree).Move")
	if fi == nil {
		return
	}
	c.Analysed(fi)
	info := fi.Pkg.TypesInfo
	refresh := p.Func("git.(*Worktree).doUpdateFileToIndex")
	if refresh == nil {
		c.Unresolved(rule, "git.(*Worktree).doUpdateFileToIndex", fi.Decl.Pos(), "the stat refresh of an index entry was not found under this name")
		return
	}
	reaches := false
	for _, cf := range p.staticClosure([]*FuncInfo{fi}) {
		if cf.Obj == refresh.Obj {
			reaches = true
		}
	}
	c.Check(!reaches, rule, fi.Name()+":no-stat-refresh", fi.Decl.Pos(), orStr(ifStr(reaches, "the destination entry is refreshed from the file's current stat data while keeping the old hash: a file modified before the move is reported unmodified afterwards, and commit records the old content"),
		"the destination entry is not refreshed from the filesystem"))
	// the removed entry is read after the rename
	f := p.FlowOf(fi)
	idxRemove := p.Func(idxShort + ".(*Index).Remove")
	var entry types.Object
	ast.Inspect(fi.Decl.Body, func(n ast.Node) bool {
		as, ok := n.(*ast.AssignStmt)
		if !ok || len(as.Rhs) != 1 || len(as.Lhs) != 2 || entry != nil {
			return true
		}
		if call, ok := unparen(as.Rhs[0]).(*ast.CallExpr); ok && idxRemove != nil && Callee(info, call) == idxRemove.Obj {
			entry = objOf(info, as.Lhs[0])
		}
		return true
	})
	renames := f.Locs(CallNode(false, func(call *ast.CallExpr) bool {
		fn := Callee(info, call)
		return fn != nil && fn.Name() == "Rename" // the worktree wrapper's or billy's
	}))
	if entry == nil || len(renames) == 0 {
		c.Violate(rule, fi.Name()+":entry-carried-over", fi.Decl.Pos(), "the index entry removed for the source is not kept (or no rename found): the destination entry cannot carry the source's stat data")
		return
	}
	used := false
	for _, rl := range renames {
		if f.Search(SearchOpts{Starts: []Loc{After(rl)}, Sink: func(n ast.Node) bool {
			// a read of the whole entry (dereference or assignment of it), not just of its hash
			found := false
			ast.Inspect(n, func(m ast.Node) bool {
				if st, ok := m.(*ast.StarExpr); ok && objOf(info, st.X) == entry {
					found = true
				}
				if as, ok := m.(*ast.AssignStmt); ok {
					for _, r := range as.Rhs {
						if objOf(info, r) == entry {
							found = true
						}
					}
				}
				if call, ok := m.(*ast.CallExpr); ok {
					for _, a := range call.Args {
						if objOf(info, a) == entry {
							found = true
						}
					}
				}
				return !found
			})
			return found
		}}) != nil {
			used = true
		}
	}
	c.Check(used, rule, fi.Name()+":entry-carried-over", fi.Decl.Pos(), orStr(ifStr(!used, "after the rename the source's entry is not read as a whole: the destination entry is not made of it"), "the destination entry is made of the source's entry"))
}

// checkTreeBuilderPrefixes (C28): the tree of a commit is built by walking each index entry's name component by
// component. A shortcut that recognises "this entry lies in the directory of the previous one" by a raw string prefix
// takes `pkg/apis/v1.go` for a file below `pkg/api`, files the blob under a bogus subtree and loses the real one. Decided:
// in the methods of buildTreeHelper every strings.HasPrefix / strings.TrimPrefix / strings.CutPrefix with a non-constant
// prefix takes a prefix that ends at a component boundary (an expression `x + "/"`), and the builder splits names at "/".
func checkTreeBuilderPrefixes(c *Ctx, rule string) {
	p := c.P
	tn := p.lookupType("git", "buildTreeHelper")
	if tn == nil {
		c.Unresolved(rule, "git.buildTreeHelper", 0, "type not found")
		return
	}
	n, splits := 0, 0
	for _, fi := range p.FuncsIn("git") {
		if fi.Decl.Body == nil || recvTypeName(fi.Obj) != tn || p.isTestFile(fi.Decl.Pos()) {
			continue
		}
		c.Analysed(fi)
		info := fi.Pkg.TypesInfo
		k := 0
		walkCalls(fi.Decl.Body, true, func(call *ast.CallExpr) {
			fn := Callee(info, call)
			if fn == nil || fn.Pkg() == nil || fn.Pkg().Path() != "strings" || len(call.Args) != 2 {
				return
			}
			switch fn.Name() {
			case "Split", "SplitN":
				if tv := info.Types[call.Args[1]]; tv.Value != nil && tv.Value.Kind() == constant.String && constant.StringVal(tv.Value) == "/" {
					splits++
				}
			case "HasPrefix", "TrimPrefix", "CutPrefix":
				if tv := info.Types[call.Args[1]]; tv.Value != nil {
					return // a constant prefix
				}
				n++
				k++
				okForm := false
				if be, ok := unparen(call.Args[1]).(*ast.BinaryExpr); ok && be.Op == token.ADD {
					if tv := info.Types[be.Y]; tv.Value != nil && tv.Value.Kind() == constant.String && constant.StringVal(tv.Value) == "/" {
						okForm = true
					}
				}
				c.Check(okForm, rule, fi.Name()+"->strings."+fn.Name()+ifStr(k > 1, "#"+itoa(k)), call.Pos(), orStr(ifStr(!okForm, "a directory is recognised by a raw string prefix ("+exprString(call.Args[1])+"): `pkg/apis/v1.go` passes for a file below `pkg/api`, its blob is filed under a bogus subtree and the committed tree is not the index's"),
					"the prefix ends at a component boundary"))
			}
		})
	}
	c.Check(splits >= 1, rule, "git.buildTreeHelper:splits-at-separator", tn.Pos(), orStr(ifStr(splits == 0, "the tree builder no longer splits entry names at \"/\""), "entry names are split at \"/\""))
	if n == 0 {
		c.Hold(rule, "git.buildTreeHelper:no-raw-prefix", tn.Pos(), "no variable string prefix is tested in the tree builder")
	}
}

func hitPos(h *Hit) token.Pos {
	if h == nil || h.Node == nil {
		return token.NoPos
	}
	return h.Node.Pos()
}

// mentionsEntryName: the expression reads the Name field of an index entry
func mentionsEntryName(info *types.Info, e ast.Expr) bool {
	found := false
	ast.Inspect(e, func(n ast.Node) bool {
		if sel, ok := n.(*ast.SelectorExpr); ok && sel.Sel.Name == "Name" {
			if fv, ok := info.Uses[sel.Sel].(*types.Var); ok && fv.IsField() && fv.Pkg() != nil && shortPkg(fv.Pkg().Path()) == idxShort {
				found = true
			}
		}
		return !found
	})
	return found
}
