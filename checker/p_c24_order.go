package main

import (
	"go/ast"
)

// checkPoolLockOrder (C24, C23): SharedFile and the descriptor pool call each other — the pool's eviction walk asks
// Member.Pinned()/ReleaseNow(), which take the member's mutex, and the member registers/forgets itself with the pool,
// which takes the pool's. The order is kept acyclic by two conventions that this rule decides on every call site:
// a SharedFile method never calls the pool while it holds its own mutex, and the pool never calls Member.ReleaseNow
// while it holds p.mu. An inversion is a deadlock of two readers, after which every reader blocks at its next Acquire.
func checkPoolLockOrder(c *Ctx, r4 string) {
	p := c.P
	pk := p.Pkg(sfShort)
	if pk == nil {
		c.Unresolved(r4, "package "+sfShort, 0, "not loaded")
		return
	}
	info := pk.TypesInfo
	for _, fi := range p.FuncsIn(sfShort) {
		if fi.Decl.Body == nil || p.isTestFile(fi.Decl.Pos()) {
			continue
		}
		var fl *FuncLocks
		walkCalls(fi.Decl.Body, true, func(call *ast.CallExpr) {
			fn := Callee(info, call)
			if fn == nil || fn.Pkg() == nil || shortPkg(fn.Pkg().Path()) != "x/fdpool" {
				return
			}
			if tn := recvTypeName(fn); tn == nil || tn.Name() != "Pool" {
				return
			}
			if fl == nil {
				fl = p.FuncLocks(fi, nil)
			}
			held := fl.HeldAt(call.Pos())
			bad := ""
			for l := range held {
				bad = l
			}
			c.Analysed(fi)
			c.Check(bad == "", r4, fi.Name()+"->Pool."+fn.Name(), call.Pos(), orStr(ifStr(bad != "", "pool called while holding "+bad+" (the pool calls back Pinned/ReleaseNow, which take it)"), "pool called with no SharedFile lock held"))
		})
	}
	for _, fi := range p.FuncsIn("x/fdpool") {
		if fi.Decl.Body == nil || p.isTestFile(fi.Decl.Pos()) {
			continue
		}
		finfo := fi.Pkg.TypesInfo
		var fl *FuncLocks
		walkCalls(fi.Decl.Body, true, func(call *ast.CallExpr) {
			fn := Callee(finfo, call)
			if fn == nil || fn.Name() != "ReleaseNow" {
				return
			}
			if fl == nil {
				fl = p.FuncLocks(fi, nil)
			}
			held := fl.HeldAt(call.Pos())
			_, bad := held["p.mu"]
			c.Analysed(fi)
			c.Check(!bad, r4, fi.Name()+"->Member.ReleaseNow", call.Pos(), orStr(ifStr(bad, "member released while holding the pool lock"), "member released with the pool lock dropped"))
		})
	}
	c.Floor(r4, 3)
}
