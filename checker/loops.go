package main

import (
	"fmt"
	"go/ast"
	"go/token"
)

// LoopsExhaustive: every for/range loop of a validator is left only when its condition fails (or the range is exhausted)
// or by a rejecting return. One obligation per loop, keyed by the loop's ordinal and header expression.
// Early exits recognised: break (unlabelled with the loop as innermost breakable statement, or labelled with the loop's
// label), labelled continue to an enclosing loop, goto, and a return that does not certainly return a non-nil error.
func LoopsExhaustive(c *Ctx, rule string, fi *FuncInfo) { LoopsExhaustiveRej(c, rule, fi, nil) }

// LoopsExhaustiveRej: as LoopsExhaustive with a custom notion of "rejecting return" (nil: returns a non-nil error).
func LoopsExhaustiveRej(c *Ctx, rule string, fi *FuncInfo, rejecting func(*ast.ReturnStmt) bool) {
	info := fi.Pkg.TypesInfo
	body := fi.Decl.Body
	if rejecting == nil {
		rejecting = func(r *ast.ReturnStmt) bool { return returnsNonNilError(info, body, r) }
	}
	c.Analysed(fi)
	labels := map[ast.Stmt]string{}
	ast.Inspect(body, func(n ast.Node) bool {
		if ls, ok := n.(*ast.LabeledStmt); ok {
			labels[ls.Stmt] = ls.Label.Name
		}
		return true
	})
	n := 0
	var visit func(node ast.Node, loops []ast.Stmt, breakables []ast.Stmt, early map[ast.Stmt][]string)
	early := map[ast.Stmt][]string{}
	var order []ast.Stmt
	line := func(p token.Pos) int { return c.P.Fset.Position(p).Line }
	visit = func(node ast.Node, loops []ast.Stmt, breakables []ast.Stmt, early map[ast.Stmt][]string) {
		ast.Inspect(node, func(x ast.Node) bool {
			if x == nil || x == node {
				return true
			}
			switch v := x.(type) {
			case *ast.FuncLit:
				return false
			case *ast.ForStmt:
				order = append(order, v)
				if v.Init != nil {
					visit(v.Init, loops, breakables, early)
				}
				visit(v.Body, append(append([]ast.Stmt{}, loops...), v), append(append([]ast.Stmt{}, breakables...), v), early)
				return false
			case *ast.RangeStmt:
				order = append(order, v)
				visit(v.Body, append(append([]ast.Stmt{}, loops...), v), append(append([]ast.Stmt{}, breakables...), v), early)
				return false
			case *ast.SwitchStmt:
				visit(v.Body, loops, append(append([]ast.Stmt{}, breakables...), v), early)
				return false
			case *ast.TypeSwitchStmt:
				visit(v.Body, loops, append(append([]ast.Stmt{}, breakables...), v), early)
				return false
			case *ast.SelectStmt:
				visit(v.Body, loops, append(append([]ast.Stmt{}, breakables...), v), early)
				return false
			case *ast.BranchStmt:
				switch v.Tok {
				case token.BREAK:
					if v.Label == nil {
						if len(breakables) > 0 {
							if t := breakables[len(breakables)-1]; isLoop(t) {
								early[t] = append(early[t], fmt.Sprintf("break at line %d", line(v.Pos())))
							}
						}
					} else {
						// leaves every loop up to and including the labelled one
						hit := false
						for i := len(loops) - 1; i >= 0; i-- {
							early[loops[i]] = append(early[loops[i]], fmt.Sprintf("break %s at line %d", v.Label.Name, line(v.Pos())))
							if labels[loops[i]] == v.Label.Name {
								hit = true
								break
							}
						}
						_ = hit
					}
				case token.CONTINUE:
					if v.Label != nil {
						for i := len(loops) - 1; i >= 0; i-- {
							if labels[loops[i]] == v.Label.Name {
								break
							}
							early[loops[i]] = append(early[loops[i]], fmt.Sprintf("continue %s at line %d", v.Label.Name, line(v.Pos())))
						}
					}
				case token.GOTO:
					for _, l := range loops {
						early[l] = append(early[l], fmt.Sprintf("goto at line %d", line(v.Pos())))
					}
				}
			case *ast.ReturnStmt:
				if len(loops) > 0 && !rejecting(v) {
					for _, l := range loops {
						early[l] = append(early[l], fmt.Sprintf("accepting return at line %d", line(v.Pos())))
					}
				}
			}
			return true
		})
	}
	visit(body, nil, nil, early)
	for i, l := range order {
		n++
		hdr := ""
		switch v := l.(type) {
		case *ast.ForStmt:
			if v.Cond != nil {
				hdr = exprString(v.Cond)
			}
		case *ast.RangeStmt:
			hdr = "range " + exprString(v.X)
		}
		key := fmt.Sprintf("%s:loop#%d(%s)", fi.Name(), i+1, hdr)
		if e := early[l]; len(e) > 0 {
			c.Violate(rule, key, l.Pos(), "the loop can be left before every element was examined: "+e[0]+"; the remaining components are not validated")
		} else {
			c.Hold(rule, key, l.Pos(), "left only by its condition or by a rejecting return")
		}
	}
	if n == 0 {
		c.Unresolved(rule, fi.Name()+":loops", fi.Decl.Pos(), "validator has no loop: the per-component rules cannot be located")
	}
}

func isLoop(s ast.Stmt) bool {
	switch s.(type) {
	case *ast.ForStmt, *ast.RangeStmt:
		return true
	}
	return false
}
