package main

import (
	"go/ast"
	"go/token"
	"go/types"
)

func init() {
	register(&propSpec{
		ID: "C26",
		Explanation: "Decides the containment mechanism, not the behaviour: (worktree-fs-complete) every path-taking billy.Filesystem method is declared on " +
			"*worktreeFilesystem, none promoted from the raw filesystem; (path-validated) inside each, the raw filesystem is reached only after " +
			"validWritePath (mutators, all path arguments) / validReadPath (readers) succeeded, Symlink also validSymlinkName, Chroot also the final-component symlink check; " +
			"(validator-composition, reject-rules) the validators chain validPath and validNoLeadingSymlink and still contain each rejecting rule; " +
			"(validator-loops-exhaustive) every loop of the validators (over paths, bytes, components, ancestor directories) is left only by its condition or a rejecting return: no break, goto, labelled continue or accepting return; " +
			"(raw-fs-access) the wrapped raw filesystem and Repository.wt are used only in a frozen set of functions; (unblock-before-write) every creating call on a " +
			"*worktreeFilesystem is preceded by clearBlockingSymlinks in the function or in all its callers; (tree-path-validated) FindEntry, TreeEntryFile, TreeWalker.Next, " +
			"Index.Add, Submodule.Repository and DotGit.Module validate before use. Not decided: completeness of the HFS/NTFS disguise tables, TOCTOU between Lstat and use.",
		Assumptions: []string{"billy filesystems confine a chroot'ed filesystem to its root", "pathutil's HFS/NTFS tables are complete"},
		Run:         runC26,
	})
}

func runC26(c *Ctx) {
	p := c.P
	gitPkg := p.Pkg("git")
	if gitPkg == nil {
		c.Unresolved("worktree-fs-complete", "package git", 0, "root package not loaded")
		return
	}
	info := gitPkg.TypesInfo
	wtn := p.lookupType("git", "worktreeFilesystem")
	billy := p.importedPkg(billyPath)
	if wtn == nil || billy == nil {
		c.Unresolved("worktree-fs-complete", "git.worktreeFilesystem", 0, "wrapper type or billy package not found")
		return
	}
	fsIfaceObj, _ := billy.Scope().Lookup("Filesystem").(*types.TypeName)
	if fsIfaceObj == nil {
		c.Unresolved("worktree-fs-complete", "billy.Filesystem", 0, "interface not found")
		return
	}
	fsIface := fsIfaceObj.Type().Underlying().(*types.Interface)
	wrapT := types.NewPointer(wtn.Type())
	rawField := fieldOf(wtn, "Filesystem")
	if rawField == nil || !rawField.Embedded() {
		// role: the embedded billy.Filesystem field
		st := wtn.Type().Underlying().(*types.Struct)
		for i := 0; i < st.NumFields(); i++ {
			if st.Field(i).Embedded() && types.Identical(st.Field(i).Type(), fsIfaceObj.Type()) {
				rawField = st.Field(i)
			}
		}
	}
	if rawField == nil {
		c.Unresolved("worktree-fs-complete", "git.worktreeFilesystem.<embedded billy.Filesystem>", wtn.Pos(), "embedded raw filesystem field not found")
		return
	}

	// 1. WRAP
	WrapComplete(c, "worktree-fs-complete", "git.worktreeFilesystem", wrapT, fsIface,
		func(m *types.Func) bool { return hasStringParam(m.Type().(*types.Signature)) },
		map[string]string{"Join": "pure path concatenation; performs no filesystem access"}, wtn.Pos())
	c.Floor("worktree-fs-complete", 13)

	// 2. GUARD path-validated
	validW := p.Func("git.(*worktreeFilesystem).validWritePath")
	validR := p.Func("git.(*worktreeFilesystem).validReadPath")
	validP := p.Func("git.(*worktreeFilesystem).validPath")
	validL := p.Func("git.(*worktreeFilesystem).validNoLeadingSymlink")
	validS := p.Func("git.(*worktreeFilesystem).validSymlinkName")
	for n, f := range map[string]*FuncInfo{"validWritePath": validW, "validReadPath": validR, "validPath": validP, "validNoLeadingSymlink": validL, "validSymlinkName": validS} {
		if f == nil {
			c.Unresolved("path-validated", "git.(*worktreeFilesystem)."+n, wtn.Pos(), "validator not found")
			return
		}
	}
	isCallTo := func(fi *FuncInfo) func(*ast.CallExpr) bool {
		return func(call *ast.CallExpr) bool { return Callee(info, call) == fi.Obj }
	}
	// raw call: a method call whose receiver expression selects the embedded raw field
	isRaw := func(call *ast.CallExpr) bool {
		sel, ok := unparen(call.Fun).(*ast.SelectorExpr)
		if !ok {
			return false
		}
		inner, ok := unparen(sel.X).(*ast.SelectorExpr)
		return ok && info.Uses[inner.Sel] == rawField
	}
	mutators := map[string]bool{"Create": true, "OpenFile": true, "Remove": true, "Rename": true, "Symlink": true, "MkdirAll": true}
	pathParamIdx := map[string][]int{"Symlink": {1}} // Symlink(target, link): only link is a worktree path
	validators := map[string]bool{validW.Name(): true, validR.Name(): true, validP.Name(): true, validL.Name(): true, validS.Name(): true}
	for _, m := range ifaceMethods(fsIface) {
		sig := m.Type().(*types.Signature)
		if !hasStringParam(sig) || m.Name() == "Join" {
			continue
		}
		fn, direct, found := methodDeclaredOn(wrapT, m.Pkg(), m.Name())
		if !found || !direct {
			continue // reported by WRAP
		}
		fi := p.FuncOf(fn)
		if fi == nil || validators[fi.Name()] {
			continue
		}
		c.Analysed(fi)
		params := paramObjs(info, fi.Decl)
		var pathParams []*types.Var
		if idx, ok := pathParamIdx[m.Name()]; ok {
			for _, i := range idx {
				if i < len(params) {
					pathParams = append(pathParams, params[i])
				}
			}
		} else {
			for _, pv := range params {
				if isStringish(pv.Type()) {
					pathParams = append(pathParams, pv)
				}
			}
		}
		f := p.FlowOf(fi)
		rawSites := f.sinkSites(true, isRaw)
		if len(rawSites) == 0 {
			c.Hold("path-validated", fi.Name(), fi.Decl.Pos(), "never reaches the raw filesystem (refuses)")
			continue
		}
		for _, pv := range pathParams {
			var base func(*ast.CallExpr) bool
			desc := "validWritePath"
			if mutators[m.Name()] {
				base = isCallTo(validW)
			} else {
				base = func(call *ast.CallExpr) bool { return isCallTo(validW)(call) || isCallTo(validR)(call) }
				desc = "validReadPath"
			}
			pass := ErrGuard(argMentions(info, base, pv))
			bad := false
			for _, loc := range rawSites {
				if h := f.UnguardedPath(pass, loc); h != nil {
					bad = true
					c.Violate("path-validated", fi.Name()+":"+pv.Name(), h.Node.Pos(), "raw filesystem call reachable without a successful "+desc+"("+pv.Name()+") (path through lines "+f.pathString(h)+")")
					break
				}
			}
			if !bad {
				c.Hold("path-validated", fi.Name()+":"+pv.Name(), fi.Decl.Pos(), "raw filesystem reached only after "+desc+"("+pv.Name()+") succeeded")
			}
		}
		switch m.Name() {
		case "Symlink":
			pass := ErrGuard(anyArgs(isCallTo(validS)))
			ok := true
			for _, loc := range rawSites {
				if h := f.UnguardedPath(pass, loc); h != nil {
					ok = false
					c.Violate("path-validated", fi.Name()+":validSymlinkName", h.Node.Pos(), "raw Symlink reachable without validSymlinkName")
					break
				}
			}
			if ok {
				c.Hold("path-validated", fi.Name()+":validSymlinkName", fi.Decl.Pos(), "raw Symlink only after validSymlinkName succeeded")
			}
		case "Chroot":
			modeSymlink := p.importedPkg("os").Scope().Lookup("ModeSymlink")
			pass := CondEdge(1, condMentionsObj(modeSymlink))
			ok := true
			n := 0
			for _, loc := range rawSites {
				call := nodeHasCall(loc.B.Nodes[loc.Idx], false, isRaw)
				if fn := Callee(info, call); fn == nil || fn.Name() != "Chroot" {
					continue
				}
				n++
				if h := f.UnguardedPath(pass, loc); h != nil {
					ok = false
					c.Violate("path-validated", fi.Name()+":final-component-symlink", h.Node.Pos(), "raw Chroot reachable without the final-component symlink check")
				}
			}
			if ok && n > 0 {
				c.Hold("path-validated", fi.Name()+":final-component-symlink", fi.Decl.Pos(), "raw Chroot only on the not-a-symlink edge of the Lstat check")
			}
		}
	}
	// methods declared on the wrapper that are not part of billy.Filesystem (optional interfaces that helpers such as
	// util.RemoveAll discover by type assertion): treated as mutators — every string parameter validated for writing
	ifaceNames := map[string]bool{}
	for _, m := range ifaceMethods(fsIface) {
		ifaceNames[m.Name()] = true
	}
	for _, fi := range p.FuncsIn("git") {
		if recvTypeName(fi.Obj) != wtn || validators[fi.Name()] || ifaceNames[fi.Obj.Name()] || fi.Decl.Body == nil {
			continue
		}
		f := p.FlowOf(fi)
		rawSites := f.sinkSites(true, isRaw)
		if len(rawSites) == 0 {
			continue
		}
		c.Analysed(fi)
		for _, pv := range paramObjs(info, fi.Decl) {
			if !isStringish(pv.Type()) {
				continue
			}
			pass := ErrGuard(argMentions(info, isCallTo(validW), pv))
			ok := true
			for _, loc := range rawSites {
				if h := f.UnguardedPath(pass, loc); h != nil {
					ok = false
					c.Violate("path-validated", fi.Name()+":"+pv.Name(), h.Node.Pos(), "extra wrapper method reaches the raw filesystem without validWritePath("+pv.Name()+")")
					break
				}
			}
			if ok {
				c.Hold("path-validated", fi.Name()+":"+pv.Name(), fi.Decl.Pos(), "extra wrapper method validates "+pv.Name()+" for writing before the raw filesystem")
			}
		}
	}
	c.Floor("path-validated", 15)

	// 3. validator composition
	const rv = "validator-composition"
	{
		// validWritePath: success only after validPath succeeded, and the final result is validNoLeadingSymlink's
		params := paramObjs(info, validW.Decl)
		var pv types.Object
		if len(params) > 0 {
			pv = params[0]
		}
		SuccessReturnsGuarded(c, rv, validW, ErrGuard(argMentions(info, isCallTo(validP), pv)), "validPath(paths)")
		tailCall(c, rv, validW, validL, pv)
		params = paramObjs(info, validR.Decl)
		pv = nil
		if len(params) > 0 {
			pv = params[0]
		}
		// validReadPath: root exemption or validPath then validNoLeadingSymlink
		rootExempt := CondEdge(0, func(info *types.Info, e ast.Expr) bool { return onlyComparesToConsts(info, e, pv, "", ".", "/") })
		SuccessReturnsGuarded(c, rv, validR, AnyGuard(ErrGuard(argMentions(info, isCallTo(validP), pv)), rootExempt), "validPath(p) (or the worktree-root exemption)")
		tailCall(c, rv, validR, validL, pv)
	}

	// 4. reject rules still present
	const rr = "reject-rules"
	pu := modPath + "/internal/pathutil."
	RejectRule(c, rr, validP, "control-characters", condHasConst("32", "127"), nil)
	RejectRule(c, rr, validP, "dot-and-dotdot", condHasConst(".."), nil)
	RejectRule(c, rr, validP, "dotgit-component", condCalls(repoQ("git", "isDotGitVariant")), nil)
	RejectRule(c, rr, validP, "windows-valid-path", condCalls(pu+"WindowsValidPath"), nil)
	RejectRule(c, rr, validP, "volume-name", condCalls("path/filepath.VolumeName"), nil)
	RejectRule(c, rr, validP, "empty-path", func(info *types.Info, e ast.Expr) bool {
		return condHasConst("0")(info, e) && nodeHasBuiltin(info, e, "len")
	}, nil)
	if dg := c.MustFunc(rr, "git.isDotGitVariant"); dg != nil {
		RejectRule(c, rr, dg, "IsDotGitName", condCalls(pu+"IsDotGitName"), nil)
		RejectRule(c, rr, dg, "IsHFSDotGit", condCalls(pu+"IsHFSDotGit"), nil)
	}
	if osPkg := p.importedPkg("os"); osPkg != nil {
		RejectRule(c, rr, validL, "leading-symlink", condMentionsObj(osPkg.Scope().Lookup("ModeSymlink")), nil)
	}
	RejectRule(c, rr, validS, "gitmodules", condCalls("strings.EqualFold"), nil)
	RejectRule(c, rr, validS, "ntfs-gitmodules", condCalls(pu+"IsNTFSDotGitmodules"), nil)
	RejectRule(c, rr, validS, "hfs-gitmodules", condCalls(pu+"IsHFSDotGitmodules"), nil)
	if vtp := c.MustFunc(rr, "internal/pathutil.ValidTreePath"); vtp != nil {
		RejectRule(c, rr, vtp, "control-characters", condHasConst("32", "127"), nil)
		RejectRule(c, rr, vtp, "dot-and-dotdot", condHasConst(".."), nil)
		RejectRule(c, rr, vtp, "dotgit", condCalls(pu+"IsDotGitName"), nil)
		RejectRule(c, rr, vtp, "hfs-dotgit", condCalls(pu+"IsHFSDotGit"), nil)
		RejectRule(c, rr, vtp, "ntfs-dotgit", condCalls(pu+"IsNTFSDotGit"), nil)
		RejectRule(c, rr, vtp, "volume-name", condCalls("path/filepath.VolumeName"), nil)
	}
	c.Floor(rr, 18)

	// 4b. the validators examine every path, every component and every ancestor: their loops are left only when the
	// loop condition fails or by a rejecting return (an early break / accepting return skips the remaining components)
	const rl = "validator-loops-exhaustive"
	for _, vf := range []*FuncInfo{validP, validL, validS, p.Func("internal/pathutil.ValidTreePath")} {
		if vf == nil || vf.Decl.Body == nil {
			continue
		}
		LoopsExhaustive(c, rl, vf)
	}
	c.Floor(rl, 7)

	// 5. raw-fs-access
	const ra = "raw-fs-access"
	allowRaw := map[string]string{
		"git.(*Worktree).Filesystem":     "public accessor: documented to return the underlying filesystem to the application",
		"git.(*Worktree).reusableRootFS": "type-asserts the raw filesystem to *osfs.BoundOS and re-wraps the result in newWorktreeFilesystem",
	}
	for _, u := range p.fieldUses(rawField) {
		name := funcNameOr(u.In, "<package level>")
		if u.In != nil {
			if tn := recvTypeName(u.In.Obj); tn == wtn {
				// inside the wrapper the raw filesystem may only be the receiver of a direct method call;
				// handing it to another function (util.RemoveAll, util.Walk …) lets that function operate unvalidated
				if m := rawDirectCall(u.File, u.Sel); m != "" {
					c.Hold(ra, name+"->.Filesystem."+m, u.Sel.Pos(), "direct method call inside the wrapper's own method")
				} else {
					c.Violate(ra, name+"->.Filesystem(escapes)", u.Sel.Pos(), "the raw filesystem is passed on or stored instead of being called directly; the callee operates on unvalidated paths")
				}
				continue
			}
		}
		if why, ok := allowRaw[name]; ok {
			c.Hold(ra, name+"->.Filesystem", u.Sel.Pos(), "allowed: "+why)
			continue
		}
		c.Violate(ra, name+"->.Filesystem", u.Sel.Pos(), "the raw (unvalidated) filesystem is taken out of the worktree wrapper")
	}
	// the public accessor hands out the same raw filesystem: no production code of the module calls it (it is for the application)
	if acc := p.Func("git.(*Worktree).Filesystem"); acc != nil {
		nAcc := 0
		for _, fi := range p.Funcs() {
			if fi.Decl.Body == nil || p.isTestFile(fi.Decl.Pos()) || !production(fi.Pkg) {
				continue
			}
			finfo := fi.Pkg.TypesInfo
			k := 0
			walkCalls(fi.Decl.Body, true, func(call *ast.CallExpr) {
				if Callee(finfo, call) != acc.Obj {
					return
				}
				k++
				nAcc++
				c.Violate(ra, fi.Name()+"->Worktree.Filesystem()"+ifStr(k > 1, "#"+itoa(k)), call.Pos(), "the raw (unvalidated) filesystem is taken out of the worktree wrapper through its public accessor: what is done with it (Chroot for a submodule, create, remove …) skips the symlink and .git checks")
			})
		}
		c.Check(nAcc == 0, ra, "git.(*Worktree).Filesystem:callers", acc.Decl.Pos(), orStr(ifStr(nAcc > 0, itoa(nAcc)+" production call(s) of the accessor"), "no production code of the module calls the raw-filesystem accessor"))
	} else {
		c.Unresolved(ra, "git.(*Worktree).Filesystem", 0, "accessor not found")
	}
	// in reusableRootFS every returned filesystem is the wrapper itself or a fresh wrapper
	if rr := p.Func("git.(*Worktree).reusableRootFS"); rr != nil {
		c.Analysed(rr)
		newW := p.Func("git.newWorktreeFilesystem")
		okAll := true
		ast.Inspect(rr.Decl.Body, func(n ast.Node) bool {
			if _, isLit := n.(*ast.FuncLit); isLit {
				return false
			}
			rs, ok := n.(*ast.ReturnStmt)
			if !ok || len(rs.Results) == 0 {
				return true
			}
			r0 := unparen(rs.Results[0])
			if call, ok := r0.(*ast.CallExpr); ok && newW != nil && Callee(info, call) == newW.Obj {
				return true
			}
			if sel, ok := r0.(*ast.SelectorExpr); ok {
				if v, ok := info.Uses[sel.Sel].(*types.Var); ok && v.IsField() && types.Identical(v.Type(), wrapT) {
					return true
				}
			}
			okAll = false
			return true
		})
		c.Check(okAll, ra, "git.(*Worktree).reusableRootFS:returns-wrapper", rr.Decl.Pos(), "returns only the wrapper or a newWorktreeFilesystem(...) result")
	}
	// composite literals of the wrapper only in the constructor
	for _, file := range gitPkg.Syntax {
		if p.isTestFile(file.Pos()) {
			continue
		}
		ast.Inspect(file, func(n ast.Node) bool {
			cl, ok := n.(*ast.CompositeLit)
			if !ok {
				return true
			}
			if tv, ok := info.Types[cl]; ok && types.Identical(tv.Type, wtn.Type()) {
				in := funcNameOr(p.enclosingFunc(gitPkg, cl.Pos()), "<package level>")
				c.Check(in == "git.newWorktreeFilesystem", ra, in+":worktreeFilesystem-literal", cl.Pos(), "wrapper values are built only by newWorktreeFilesystem")
			}
			return true
		})
	}
	// Repository.wt (raw worktree filesystem): used as call argument / receiver only in a frozen set
	if repoT := p.lookupType("git", "Repository"); repoT != nil {
		if wt := fieldOf(repoT, "wt"); wt != nil {
			allowedCallee := map[string]string{
				"git.newWorktreeFilesystem": "wraps it",
				"git.createDotGitFile":      "writes only the constant .git pointer file at the worktree root",
				"git.setConfigWorktree":     "only reads Root()",
			}
			for _, file := range gitPkg.Syntax {
				if p.isTestFile(file.Pos()) {
					continue
				}
				ast.Inspect(file, func(n ast.Node) bool {
					call, ok := n.(*ast.CallExpr)
					if !ok {
						return true
					}
					in := funcNameOr(p.enclosingFunc(gitPkg, call.Pos()), "<package level>")
					// receiver
					if sel, ok := unparen(call.Fun).(*ast.SelectorExpr); ok {
						if inner, ok := unparen(sel.X).(*ast.SelectorExpr); ok && info.Uses[inner.Sel] == wt {
							c.Violate(ra, in+"->Repository.wt."+sel.Sel.Name, call.Pos(), "filesystem operation on the raw worktree filesystem, bypassing worktreeFilesystem")
						}
					}
					for _, a := range call.Args {
						if sel, ok := unparen(a).(*ast.SelectorExpr); ok && info.Uses[sel.Sel] == wt {
							cal := Callee(info, call)
							cn := funcName(cal)
							if why, ok := allowedCallee[cn]; ok {
								c.Hold(ra, in+":Repository.wt->"+cn, call.Pos(), "allowed: "+why)
							} else {
								c.Violate(ra, in+":Repository.wt->"+cn, call.Pos(), "raw worktree filesystem passed to a function outside the frozen set")
							}
						}
					}
					return true
				})
			}
			// the two helpers touch the raw worktree only through Root() and Create(<constant>)
			for _, hn := range []string{"git.createDotGitFile", "git.setConfigWorktree"} {
				h := p.Func(hn)
				if h == nil {
					c.Unresolved(ra, hn, 0, "helper not found")
					continue
				}
				c.Analysed(h)
				params := paramObjs(info, h.Decl)
				var wparam *types.Var
				for _, pv := range params {
					if pv.Name() == "worktree" || (wparam == nil && types.Identical(pv.Type(), fsIfaceObj.Type())) {
						if pv.Name() == "worktree" || wparam == nil {
							wparam = pv
						}
					}
				}
				ok := wparam != nil
				walkCalls(h.Decl.Body, true, func(call *ast.CallExpr) {
					sel, isSel := unparen(call.Fun).(*ast.SelectorExpr)
					if !isSel || objOf(info, sel.X) != wparam {
						for _, a := range call.Args {
							if objOf(info, a) == wparam {
								ok = false // passed on
							}
						}
						return
					}
					switch sel.Sel.Name {
					case "Root":
					case "Create":
						if tv := info.Types[call.Args[0]]; tv.Value == nil {
							ok = false
						}
					default:
						ok = false
					}
				})
				c.Check(ok, ra, hn+":raw-worktree-use", h.Decl.Pos(), "uses the raw worktree only via Root() and Create(<constant>)")
			}
		} else {
			c.Unresolved(ra, "git.Repository.wt", repoT.Pos(), "field not found")
		}
	}
	c.Floor(ra, 20)

	// 6. unblock-before-write
	const ub = "unblock-before-write"
	clear := p.Func("git.(*Worktree).clearBlockingSymlinks")
	if clear == nil {
		c.Unresolved(ub, "git.(*Worktree).clearBlockingSymlinks", 0, "anchor not found")
	} else {
		creating := map[string]bool{"OpenFile": true, "Symlink": true, "MkdirAll": true, "Create": true}
		isCreating := func(call *ast.CallExpr) bool {
			sel, ok := unparen(call.Fun).(*ast.SelectorExpr)
			if !ok || !creating[sel.Sel.Name] {
				return false
			}
			tv, ok := info.Types[sel.X]
			return ok && types.Identical(tv.Type, wrapT)
		}
		clearPass := ErrGuard(anyArgs(isCallTo(clear)))
		var guardedFn func(fi *FuncInfo, depth int) (bool, string)
		guardedFn = func(fi *FuncInfo, depth int) (bool, string) {
			// all call sites of fi in package git are guarded in their caller (or recursively)
			sites := p.CallSites(func(_ *types.Info, call *ast.CallExpr, callee *types.Func) bool { return callee == fi.Obj })
			if len(sites) == 0 {
				return false, "no callers"
			}
			for _, s := range sites {
				if p.isTestFile(s.Call.Pos()) {
					continue
				}
				cf := p.FlowOf(s.In)
				ok := true
				for _, loc := range cf.sinkSites(true, func(cc *ast.CallExpr) bool { return cc == s.Call }) {
					if cf.UnguardedPath(clearPass, loc) != nil {
						ok = false
					}
				}
				if !ok {
					if depth >= 2 {
						return false, "caller " + s.In.Name() + " does not clear blocking symlinks first"
					}
					if ok2, why := guardedFn(s.In, depth+1); !ok2 {
						return false, "caller " + s.In.Name() + " does not clear blocking symlinks first (" + why + ")"
					}
				}
			}
			return true, ""
		}
		for _, fi := range p.FuncsIn("git") {
			if fi.Decl.Body == nil || p.isTestFile(fi.Decl.Pos()) {
				continue
			}
			if tn := recvTypeName(fi.Obj); tn == wtn {
				continue
			}
			f := p.FlowOf(fi)
			seen := map[string]int{}
			for _, loc := range f.sinkSites(true, isCreating) {
				call := nodeHasCall(loc.B.Nodes[loc.Idx], false, isCreating)
				key := fi.Name() + "->" + unparen(call.Fun).(*ast.SelectorExpr).Sel.Name
				seen[key]++
				if seen[key] > 1 {
					key += "#" + itoa(seen[key])
				}
				c.Analysed(fi)
				if f.UnguardedPath(clearPass, loc) == nil {
					c.Hold(ub, key, call.Pos(), "preceded by a successful clearBlockingSymlinks in this function")
					continue
				}
				if ok, why := guardedFn(fi, 0); ok {
					c.Hold(ub, key, call.Pos(), "every caller clears blocking symlinks before calling "+fi.Name())
				} else {
					c.Violate(ub, key, call.Pos(), "creating call on the worktree filesystem is not preceded by clearBlockingSymlinks: "+why)
				}
			}
		}
		c.Floor(ub, 4)
	}

	// 7. tree-path-validated
	const tp = "tree-path-validated"
	vtpQ := pu + "ValidTreePath"
	for _, ent := range []struct{ fn string }{
		{"plumbing/object.(*Tree).FindEntry"}, {"plumbing/object.(*Tree).TreeEntryFile"}, {"plumbing/format/index.(*Index).Add"},
	} {
		fi := c.MustFunc(tp, ent.fn)
		if fi == nil {
			continue
		}
		finfo := fi.Pkg.TypesInfo
		params := paramObjs(finfo, fi.Decl)
		var pv types.Object
		if len(params) > 0 {
			pv = params[0]
		}
		SuccessReturnsGuarded(c, tp, fi, ErrGuard(argMentions(finfo, calleeIs(finfo, vtpQ), pv)), "pathutil.ValidTreePath("+pv.Name()+")")
	}
	if next := c.MustFunc(tp, "plumbing/object.(*TreeWalker).Next"); next != nil {
		finfo := next.Pkg.TypesInfo
		skip := fieldOf(p.lookupType("plumbing/object", "TreeWalker"), "skipPathValidation")
		var nameRes types.Object
		if next.Decl.Type.Results != nil && len(next.Decl.Type.Results.List) > 0 && len(next.Decl.Type.Results.List[0].Names) > 0 {
			nameRes = finfo.Defs[next.Decl.Type.Results.List[0].Names[0]]
		}
		if skip == nil || nameRes == nil {
			c.Unresolved(tp, next.Name(), next.Decl.Pos(), "skipPathValidation field or named result not found")
		} else {
			f := p.FlowOf(next)
			pass := AnyGuard(ErrGuard(anyArgs(calleeIs(finfo, vtpQ))),
				FactGuard(func(f *Flow, fact Fact) bool { return fact.Truth && usesObj(finfo, fact.Atom, skip) }))
			sink := func(n ast.Node) bool {
				as, ok := n.(*ast.AssignStmt)
				if !ok {
					return false
				}
				for _, l := range as.Lhs {
					if objOf(finfo, l) == nameRes {
						return true
					}
				}
				return false
			}
			if len(f.Locs(sink)) == 0 {
				c.Unresolved(tp, next.Name(), next.Decl.Pos(), "no assignment of the returned name found")
			} else if h := f.GuardedSink(pass, sink); h != nil {
				c.Violate(tp, next.Name(), h.Node.Pos(), "an entry name is produced without ValidTreePath (and without skipPathValidation)")
			} else {
				c.Hold(tp, next.Name(), next.Decl.Pos(), "names are produced only after ValidTreePath(entry.Name) succeeded or with skipPathValidation set")
			}
			// who sets skipPathValidation
			allowSkip := map[string]string{"plumbing/object.transformChildren": "read-only diff walk; names never reach the filesystem"}
			for _, u := range p.fieldUses(skip) {
				if _, isLHS := assignedIn(u.File, u.Sel); !isLHS {
					continue
				}
				in := funcNameOr(u.In, "<package level>")
				if why, ok := allowSkip[in]; ok {
					c.Hold(tp, in+":sets-skipPathValidation", u.Sel.Pos(), "allowed: "+why)
				} else {
					c.Violate(tp, in+":sets-skipPathValidation", u.Sel.Pos(), "tree path validation is switched off outside the frozen set")
				}
			}
		}
	}
	if sub := c.MustFunc(tp, "git.(*Submodule).Repository"); sub != nil {
		n := CallsGuarded(c, tp, sub, ErrGuard(anyArgs(calleeIs(info, vtpQ))), func(call *ast.CallExpr) bool {
			fn := Callee(info, call)
			return fn != nil && fn.Name() == "Chroot"
		}, "pathutil.ValidTreePath(s.c.Path)")
		if n == 0 {
			c.Unresolved(tp, sub.Name()+"->Chroot", sub.Decl.Pos(), "no Chroot call found")
		}
	}
	if mod := c.MustFunc(tp, "storage/filesystem/dotgit.(*DotGit).Module"); mod != nil {
		minfo := mod.Pkg.TypesInfo
		modulePath := p.lookupObj("storage/filesystem/dotgit", "modulePath")
		n := CallsGuarded(c, tp, mod, CondEdge(1, func(info *types.Info, e ast.Expr) bool {
			return condCalls("strings.HasPrefix")(info, e) && condMentionsObj(modulePath)(info, e)
		}), func(call *ast.CallExpr) bool { return isBillyMethod(Callee(minfo, call), "Chroot") }, "the modules/ prefix check")
		if n == 0 {
			c.Unresolved(tp, mod.Name()+"->Chroot", mod.Decl.Pos(), "no Chroot call found")
		}
	}
	c.Floor(tp, 7)
	_ = token.NoPos
}

// tailCall: the function's last statement returns the result of callee(param) (tail call), i.e. its verdict is the callee's.
func tailCall(c *Ctx, rule string, fi, callee *FuncInfo, pv types.Object) {
	info := fi.Pkg.TypesInfo
	stmts := fi.Decl.Body.List
	ok := false
	if len(stmts) > 0 {
		if rs, isRet := stmts[len(stmts)-1].(*ast.ReturnStmt); isRet && len(rs.Results) == 1 {
			if call, isCall := unparen(rs.Results[0]).(*ast.CallExpr); isCall && Callee(info, call) == callee.Obj {
				ok = pv == nil
				for _, a := range call.Args {
					if usesObj(info, a, pv) {
						ok = true
					}
				}
			}
		}
	}
	c.Check(ok, rule, fi.Name()+"=>"+callee.Obj.Name(), fi.Decl.Pos(), "the success result is "+callee.Obj.Name()+"'s verdict on the same paths")
}

// onlyComparesToConsts: e is a disjunction of `obj == "<const>"` comparisons with constants from the set.
func onlyComparesToConsts(info *types.Info, e ast.Expr, obj types.Object, consts ...string) bool {
	e = unparen(e)
	if be, ok := e.(*ast.BinaryExpr); ok {
		if be.Op == token.LOR {
			return onlyComparesToConsts(info, be.X, obj, consts...) && onlyComparesToConsts(info, be.Y, obj, consts...)
		}
		if be.Op == token.EQL && objOf(info, be.X) == obj {
			return condHasConst(consts...)(info, be.Y)
		}
	}
	return false
}

func nodeHasBuiltin(info *types.Info, e ast.Node, name string) bool {
	found := false
	ast.Inspect(e, func(n ast.Node) bool {
		if call, ok := n.(*ast.CallExpr); ok {
			if id, ok := unparen(call.Fun).(*ast.Ident); ok {
				if b, ok := info.Uses[id].(*types.Builtin); ok && b.Name() == name {
					found = true
				}
			}
		}
		return !found
	})
	return found
}

// rawDirectCall: sel (the selection of the raw filesystem field) is used as the receiver of a direct
// method call `x.Filesystem.M(...)`; returns M, or "" when the raw value is used in any other way.
func rawDirectCall(file *ast.File, sel *ast.SelectorExpr) string {
	m := ""
	ast.Inspect(file, func(n ast.Node) bool {
		call, ok := n.(*ast.CallExpr)
		if !ok {
			return true
		}
		if outer, ok := unparen(call.Fun).(*ast.SelectorExpr); ok && unparen(outer.X) == sel {
			m = outer.Sel.Name
			return false
		}
		return true
	})
	return m
}
