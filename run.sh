#!/bin/bash
# usage: ./run.sh <property id> [quick|thorough]
cd "$(dirname "$0")"
. ./env.sh
PROP=$1; TIER=${2:-${VERIF_TIER:-quick}}
if [ ! -x bin/gv ] || [ -n "$(find checker -newer bin/gv -name '*.go' -print -quit 2>/dev/null)" ]; then
  ./setup.sh >/dev/null || { echo "setup failed"; exit 2; }
fi
exec ./bin/gv -prop "$PROP" -tier "$TIER" -repo /repo -verif /verif
