#!/bin/bash
# Builds the checker offline from /verif/checker (x/tools v0.29.0 from the module cache).
set -e
cd "$(dirname "$0")"
. ./env.sh
mkdir -p bin evidence
cd checker
go mod tidy >/dev/null 2>&1 || true
go build -o ../bin/gv .
echo "built /verif/bin/gv"
