#!/usr/bin/env python3
"""Generates /verif/MANIFEST.json from the tables below (claimed checks, not-applicable reasons)
and validates it against /root/.vp/MANIFEST.schema.json when jsonschema is available."""
import json, os, subprocess, sys

HERE = os.path.dirname(os.path.abspath(__file__))

TRUST = ("Trusted base: go/packages, go/types, go/cfg (and go/ssa where named) from golang.org/x/tools v0.29.0; the Go 1.26.0 "
         "type checker; the hand-confirmed instance tables in /verif/checker (each row has a reason); billy filesystems and "
         "third-party dependencies are not analysed. Only the named structural clause is decided, not the behaviour.")

# id -> (technique, text, design_ref)
CLAIMED = {}

def claim(pid, technique, text):
    CLAIMED[pid] = (technique, text, "DESIGN.md §3 " + pid)

exec(open(os.path.join(HERE, "claims.py")).read())

NA = {}
exec(open(os.path.join(HERE, "not_applicable.py")).read())

props = [json.loads(l)["id"] for l in open(os.path.join(HERE, "properties.jsonl"))]
for p in props:
    assert (p in CLAIMED) != (p in NA), "property %s must be exactly one of claimed / not applicable" % p

fix_commits = []
man = {
    "version": 1,
    "setup_cmd": "./setup.sh",
    "hooks": {
        "guard": "verif",
        "enable": "none needed: the checks never build or run /repo with hooks; they type-check /repo's working tree as it is",
        "baseline_off_cmd": "./baseline.sh",
        "source_commits": [],
        "add_only": True,
    },
    "engines": [
        {"name": "gv", "path": "checker/", "serves_properties": sorted(CLAIMED),
         "kind_free_text": "repository-specific static analyser (go/packages + go/types + go/cfg + go/ssa): who-may-call, guarded-sink (must-pass-through on the CFG), ordering, table/sibling agreement, wrapper completeness, lockset, typestate pairing, shared-pointer mutation, taint"},
    ],
    "checks": [],
    "not_applicable": [{"property_id": p, "reason": NA[p]} for p in props if p in NA],
    "notes": "All claims are at level 'other': each check decides a named structural necessary condition of the property from /repo's current source (see DESIGN.md), never the whole behaviour. Known genuine defects that were not repaired are listed in known_findings.txt and printed as KNOWN-FINDING lines.",
}
for p in props:
    if p not in CLAIMED:
        continue
    tech, text, ref = CLAIMED[p]
    man["checks"].append({
        "property_id": p,
        "quick_cmd": "./run.sh %s quick" % p,
        "thorough_cmd": "./run.sh %s thorough" % p,
        "evidence_file": "evidence/%s.json" % p,
        "replay_cmd_template": "./run.sh %s quick  # violations are listed in {path}" % p,
        "engine": "gv",
        "level_claimed": {"category": "other", "text": text, "design_ref": ref},
        "level_note": TRUST,
        "technique": tech,
    })
json.dump(man, open(os.path.join(HERE, "MANIFEST.json"), "w"), indent=1)
try:
    import jsonschema
    jsonschema.validate(man, json.load(open("/root/.vp/MANIFEST.schema.json")))
    print("MANIFEST.json valid: %d claimed, %d not applicable" % (len(man["checks"]), len(man["not_applicable"])))
except ImportError:
    print("MANIFEST.json written (jsonschema not importable here): %d claimed, %d n/a" % (len(man["checks"]), len(man["not_applicable"])))
