# sourced by setup.sh / run.sh: pin the cached Go 1.26.0 toolchain, fully offline
export PATH=/root/go/pkg/mod/golang.org/toolchain@v0.0.1-go1.26.0.linux-amd64/bin:$PATH
export GOTOOLCHAIN=local GOFLAGS=-mod=mod GOPROXY=off GOSUMDB=off
unset GOWORK
