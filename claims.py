# claim(id, technique, text) — one per property whose check is implemented in checker/
claim("C05", "static: who-may-call / forbidden-callee over the type-checked AST + registry table check",
      "Decides, for every production call site and method value in the repository, that no SHA-1 hasher is constructed other than through plumbing/hash.New (no crypto.SHA1.New, no crypto.Hash.New on a variable, no crypto/sha1), and that the registry default for SHA-1 is sha1cd.New with no production override. This is the whole 'implementation actually used' clause; sha1cd's detection itself is trusted.")
